package main

// C10, pool part: request accounting of the REAL xprotocol pools (multiplex, ping-pong, binding): host and cluster
// upstream_request_active and the cluster's Requests circuit-breaker resource over histories of {two-way request, one-way
// request, send (fails when the connection closed after admission), response, reset / time-out, connection close}.

import (
	"time"
	"context"
	"fmt"
	"strings"
	"sync"

	"mosn.io/api"
	sx "mosn.io/mosn/pkg/stream/xprotocol"
	"mosn.io/mosn/pkg/log"
	"mosn.io/mosn/pkg/types"
	"mosn.io/pkg/buffer"
	"mosn.io/pkg/variable"

	. "vh/vhlib"
)

var acctKinds = []string{"multiplex", "pingpong", "binding"}

type aworld struct {
	*world
	pkind string
	down  *fakeConn // binding pool: the downstream connection the upstream connection is bound to
}

func newAWorld(pkind string, maxReq uint64) *aworld {
	w, err := newWorld(kPingPong, 0, maxReq)
	if err != nil {
		panic(err)
	}
	codec := map[string]*ppCodec{"multiplex": mxCodecInst, "pingpong": ppCodecInst, "binding": bdCodecInst}[pkind]
	w.pool = sx.NewConnPool(context.Background(), codec, w.host)
	w.noHeldWait = true
	fakeConnID++
	return &aworld{world: w, pkind: pkind, down: &fakeConn{id: fakeConnID, fm: &fakeFM{}}}
}

func (w *aworld) reqCtx() context.Context {
	ctx := buffer.NewBufferPoolContext(variable.NewVariableContext(context.Background()))
	_ = variable.Set(ctx, types.VariableConnection, api.Connection(w.down))
	return ctx
}

type aobsT struct {
	Active  int64  `json:"request_active_host"`
	Cluster int64  `json:"request_active_cluster"`
	Req     int64  `json:"requests_resource"`
	Live    []bool `json:"live"`
}

func (w *aworld) aobserve() aobsT {
	o := aobsT{Active: w.host.HostStats().UpstreamRequestActive.Count(), Cluster: w.host.ClusterInfo().Stats().UpstreamRequestActive.Count(), Req: w.rm.Requests().Cur()}
	for _, l := range w.leases {
		o.Live = append(o.Live, l.live())
	}
	return o
}

// apply returns the model operation(s) the harness op stands for
func (w *aworld) aapply(o op) string {
	switch o.K {
	case "init":
		if w.pkind == "multiplex" {
			ctx := variable.NewVariableContext(context.Background())
			waitFor(20e9, func() bool { return w.pool.CheckAndInit(ctx) })
			w.registerNewClients()
		}
		return "ANop"
	case "two", "one":
		ctx := w.reqCtx()
		l := &lease{idx: len(w.leases), tok: len(w.leases) + 100, ctx: ctx, cli: -1, recvWanted: o.K == "two"}
		var recv types.StreamReceiveListener
		if o.K == "two" {
			recv = l
		}
		if w.pkind == "multiplex" {
			w.pool.CheckAndInit(variable.NewVariableContext(context.Background()))
			waitFor(20e9, func() bool { st, _, _ := sx.VerifMultiplexState(w.pool, 0); return st != 1 })
		}
		_, sender, reason := w.pool.NewStream(ctx, recv)
		w.registerNewClients()
		ow := CoqBool(o.K == "one")
		if reason != "" {
			return fmt.Sprintf("ANew %s None", ow)
		}
		l.sender = sender
		if v, err := variable.Get(ctx, types.VariableUpstreamConnectionID); err == nil {
			if id, ok := v.(uint64); ok {
				if c := w.byConnID[id]; c != nil {
					l.cli = c.idx
				}
			}
		}
		if l.cli < 0 && len(w.clients) > 0 {
			l.cli = len(w.clients) - 1
		}
		sender.GetStream().AddEventListener(l)
		w.leases = append(w.leases, l)
		return fmt.Sprintf("ANew %s (Some %d)", ow, l.cli)
	case "send":
		l := w.leases[o.A]
		if !l.sent && l.live() {
			typ := byte(ppRequest)
			l.sent = true
			l.sender.AppendHeaders(l.ctx, &ppFrame{typ: typ, tok: uint32(l.tok)}, true)
		}
		return fmt.Sprintf("ASend %d", o.A)
	case "resp":
		l := w.leases[o.A]
		if l.live() && l.sent && l.cli >= 0 && w.clients[l.cli].up != nil && !w.clients[l.cli].closedMosnSide() {
			w.wait("request-arrival", 20e9, func() bool {
				uc := w.clients[l.cli].up
				uc.mu.Lock()
				defer uc.mu.Unlock()
				_, ok := uc.ids[l.tok]
				return ok || !l.live()
			})
			w.respond(l, false)
		}
		return fmt.Sprintf("AResponse %d", o.A)
	case "reset":
		w.localReset(w.leases[o.A])
		return fmt.Sprintf("AReset %d", o.A)
	case "closer", "closel":
		c := w.clients[o.A]
		var held []*lease
		for _, l := range w.leases {
			if l.cli == c.idx && l.live() && l.recvWanted {
				held = append(held, l)
			}
		}
		w.connClose(c, map[string]string{"closer": "fin", "closel": "local"}[o.K])
		for _, l := range held {
			l := l
			w.wait("reset-after-close", 20e9, func() bool { return !l.live() })
		}
		return fmt.Sprintf("AConnClose %d", o.A)
	}
	panic("c10 op " + o.K)
}

func (w *aworld) aenabled() []op {
	ops := []op{{K: "two"}, {K: "one"}}
	for _, l := range w.leases {
		if !l.live() {
			continue
		}
		if !l.sent {
			ops = append(ops, op{"send", l.idx})
		} else if l.recvWanted {
			ops = append(ops, op{"resp", l.idx})
		}
		ops = append(ops, op{"reset", l.idx})
	}
	for _, c := range w.clients {
		if !c.closedMosnSide() && c.up != nil {
			ops = append(ops, op{"closer", c.idx}, op{"closel", c.idx})
		}
	}
	return ops
}

type ahist struct {
	pkind   string
	maxReq  uint64
	ops     []op
	coq     []string
	obs     []aobsT
	fnd     []finding
	timeouts []string
}

func (h *ahist) key() string {
	var b strings.Builder
	fmt.Fprintf(&b, "acct|%s|%d", h.pkind, h.maxReq)
	for _, o := range h.ops {
		b.WriteString("|" + o.String())
	}
	return b.String()
}

func (h *ahist) descr() map[string]interface{} {
	var ops []string
	for _, o := range h.ops {
		ops = append(ops, o.String())
	}
	return map[string]interface{}{"pool": h.pkind, "max_requests": h.maxReq, "ops": ops, "obs": h.obs}
}

func (h *ahist) coqCase() string {
	var steps []string
	for i := range h.ops {
		var live []string
		for _, b := range h.obs[i].Live {
			live = append(live, CoqBool(b))
		}
		steps = append(steps, fmt.Sprintf("(%s, (%s, %s, %s))", h.coq[i], CoqZ(h.obs[i].Active), CoqZ(h.obs[i].Req), CoqList(live)))
	}
	return fmt.Sprintf("(poolacct_src_%s, %s, [%s])", h.pkind, CoqZ(int64(h.maxReq)), strings.Join(steps, ";\n   "))
}

func (w *aworld) acheck(o op, ob aobsT, seen map[string]bool) []finding {
	var out []finding
	add := func(sig, what string) {
		if !seen[sig] {
			seen[sig] = true
			out = append(out, finding{"xpool:" + sig + ":" + w.pkind, what})
		}
	}
	liveTwo, liveAll := 0, 0
	for _, l := range w.leases {
		if l.live() {
			liveAll++
			if l.recvWanted {
				liveTwo++
			}
		}
	}
	if ob.Active < 0 || ob.Cluster < 0 {
		add("request-active-negative", fmt.Sprintf("after %s: upstream_request_active host=%d cluster=%d", o, ob.Active, ob.Cluster))
	}
	if ob.Req < 0 {
		add("breaker-resource-negative", fmt.Sprintf("after %s: Requests().Cur() = %d", o, ob.Req))
	}
	if ob.Active != ob.Cluster {
		add("host-cluster-gauge-differ", fmt.Sprintf("after %s: host %d, cluster %d", o, ob.Active, ob.Cluster))
	}
	if ob.Active >= 0 && (ob.Active < int64(liveTwo) || ob.Active > int64(liveAll)) {
		add("request-active-differs-from-live-requests", fmt.Sprintf("after %s: upstream_request_active = %d with %d two-way and %d one-way requests admitted and not finished", o, ob.Active, liveTwo, liveAll-liveTwo))
	}
	if ob.Req != ob.Active { // for every max_requests, 0 (unlimited) included
		add("breaker-resource-mismatch", fmt.Sprintf("after %s: Requests().Cur() = %d, upstream_request_active = %d (max_requests %d)", o, ob.Req, ob.Active, w.maxReq))
	}
	return out
}

func runAcct(pkind string, maxReq uint64, depth int, pick func(step int, en []op) *op) *ahist {
	w := newAWorld(pkind, maxReq)
	defer w.close()
	h := &ahist{pkind: pkind, maxReq: maxReq}
	seen := map[string]bool{}
	step := func(o op) {
		c := w.aapply(o)
		ob := w.aobserve()
		h.ops = append(h.ops, o)
		h.coq = append(h.coq, c)
		h.obs = append(h.obs, ob)
		h.fnd = append(h.fnd, w.acheck(o, ob, seen)...)
	}
	for i := 0; i < depth; i++ {
		o := pick(i, w.aenabled())
		if o == nil {
			break
		}
		step(*o)
	}
	// drain: every admitted request is finished; nothing may be left on the gauges
	for _, l := range w.leases {
		if l.live() {
			step(op{"reset", l.idx})
		}
	}
	if ob := w.aobserve(); ob.Active != 0 || ob.Cluster != 0 || ob.Req != 0 {
		sig := "request-active-leaked"
		if ob.Active < 0 || ob.Req < 0 {
			sig = "request-active-negative"
		}
		if !seen[sig] {
			h.fnd = append(h.fnd, finding{"xpool:" + sig + ":" + pkind, fmt.Sprintf("all requests finished: upstream_request_active host=%d cluster=%d, Requests().Cur()=%d", ob.Active, ob.Cluster, ob.Req)})
		}
	}
	h.timeouts = w.timeouts
	return h
}

func c10(args []string) int {
	run := NewRun("C10", args)
	log.DefaultLogger.SetLogLevel(log.FATAL)
	log.Proxy.SetLogLevel(log.FATAL)
	registerProtocols()
	run.Sum.Rule = "pool part: histories of {two-way request, one-way request (receiver nil), send (fails when the connection closed after admission), response, reset / time-out, connection close by upstream / by mosn} on the REAL xprotocol multiplex, ping-pong and binding pools, max_requests in {0,1,2}; exhaustive over the enabled ops to depth 4 (5 thorough) plus random histories of 6-20 ops; every history is drained at the end (all live requests reset); host and cluster upstream_request_active and Requests().Cur() read after every op; non-trivial: contains a one-way request or a connection close; distinct by (pool, max_requests, op sequence). HTTP/2 pool: histories of {NewStream, NewStream with a failing dial, PAIR of concurrent NewStream calls (goroutines + barrier), GOAWAY frame from the peer, connection close by the peer (FIN, RST) / by mosn, pool.Close(), stream reset} on the REAL http2 pool over a loopback HTTP/2 peer; exhaustive to depth 4 (5), the scripted cold pair + GOAWAY + close + NewStream repeated 300 (3000) times, random histories of 6-20 ops; every history is drained (GOAWAY + close on every open connection); host and cluster upstream_connection_active, the shared client and the closed flags read after every op; non-trivial: contains a GOAWAY or a concurrent pair."
	var mu sync.Mutex
	var hs []*ahist
	collect := func(h *ahist) { mu.Lock(); hs = append(hs, h); mu.Unlock() }
	var jobs []func()
	depth := run.N(4, 5)
	for _, pk := range acctKinds {
		for _, mr := range []uint64{0, 2} {
			pk, mr := pk, mr
			jobs = append(jobs, func() {
				ch := &chooser{}
				for {
					collect(runAcct(pk, mr, depth, func(step int, en []op) *op { return &en[ch.choose(len(en))] }))
					if !ch.next() {
						break
					}
				}
			})
		}
	}
	nrand := run.N(300, 5000)
	seeds := make([]uint64, nrand)
	for i := range seeds {
		seeds[i] = run.R.U64()
	}
	for i := 0; i < nrand; i++ {
		i := i
		jobs = append(jobs, func() {
			r := NewRng(seeds[i])
			collect(runAcct(acctKinds[r.Intn(3)], uint64(r.Intn(3)), 6+r.Intn(15), func(step int, en []op) *op { return &en[r.Intn(len(en))] }))
		})
	}
	var wg sync.WaitGroup
	jc := make(chan func())
	for i := 0; i < 12; i++ {
		wg.Add(1)
		go func() {
			defer wg.Done()
			for j := range jc {
				j()
			}
		}()
	}
	for _, j := range jobs {
		jc <- j
	}
	close(jc)
	wg.Wait()
	header := "From MV Require Import Gen.PoolSrc Model.Pool Model.PoolAcct.\nFrom Coq Require Import List ZArith Bool.\nImport ListNotations.\nOpen Scope nat_scope.\n"
	sh := run.NewShard(header, "acct_case", "acct_mismatches poolacct_src_destroy_oneway")
	for _, h := range hs {
		nt := false
		for _, o := range h.ops {
			if o.K == "one" || strings.HasPrefix(o.K, "close") {
				nt = true
			}
			run.Sum.Distribution["acct-op:"+o.K]++
		}
		run.Count(h.key(), nt, "acct-pool:"+h.pkind)
		for _, t := range h.timeouts {
			run.Sum.Distribution["acct-wait-expired:"+t+":"+h.pkind]++
		}
		for _, f := range h.fnd {
			run.Fail(f.sig, f.what, h.descr())
		}
		sh.Add(h.coqCase(), h.descr())
		if sh.Len() >= 400 {
			sh.Close()
			sh = run.NewShard(header, sh.Typ, sh.Eval)
		}
		if nt {
			run.Sample(h.descr())
		}
	}
	sh.Close()
	for _, ph := range []struct {
		name string
		f    func(*Run)
	}{{"h2", c10h2}, {"admit", c10admit}, {"churn", c10churn}, {"connfail", c10connfail}} {
		t0 := time.Now()
		ph.f(run)
		run.Sum.Extra["phase_ms_"+ph.name] = time.Since(t0).Milliseconds()
	}
	return run.Finish()
}

func variableGetConnID(ctx context.Context) (uint64, error) {
	v, err := variable.Get(ctx, types.VariableUpstreamConnectionID)
	if err != nil {
		return 0, err
	}
	id, _ := v.(uint64)
	return id, nil
}
