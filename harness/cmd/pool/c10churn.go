package main

// C09 / C10, pool part: the idle lists and the books under CONCURRENT Get / Put / close.  W goroutines run complete exchanges
// (NewStream, send, answer from an auto-responding upstream, stream end = connection back to the idle list) on ONE real
// HTTP/1 or ping-pong pool while another goroutine closes connections at random instants (locally, or by the upstream).
// After quiescence the ordinary finder of the C09 harness (world.check) compares the pool's books, gauges and resources with
// what is really open / alive; during the run every delivered answer must carry the token of its own request and the
// gauges must never be negative.  Finder only.

import (
	"context"
	"fmt"
	"strconv"
	"sync"
	"sync/atomic"
	"time"

	"github.com/valyala/fasthttp"
	"mosn.io/api"
	mosnhttp "mosn.io/mosn/pkg/protocol/http"
	"mosn.io/mosn/pkg/types"
	"mosn.io/pkg/buffer"
	"mosn.io/pkg/variable"

	. "vh/vhlib"
)

const churnCap = 20 * time.Second

type churnRes struct {
	kind            poolKind
	maxConn         uint64
	workers, cycles int
	done, refused   int32
	retried         []string
	hung            []string // genuine: connection closed, event handled, stream never ended
	inconclusive    string   // the world did not settle within the cap: the round is repeated, never reported from one run
	negative        string
	findings        []finding
	closes          int
	timeouts        []string
}

func runChurn(kind poolKind, maxConn uint64, workers, cycles int, seed uint64) *churnRes {
	w, err := newWorld(kind, maxConn, 0)
	if err != nil {
		panic(err)
	}
	defer w.close()
	w.noHeldWait = true
	w.up.mu.Lock()
	w.up.auto = true
	w.up.mu.Unlock()
	r := &churnRes{kind: kind, maxConn: maxConn, workers: workers, cycles: cycles}
	var wg sync.WaitGroup
	var tokSeq int32 = 1000
	var mu sync.Mutex
	var stuck []*lease
	var victims []api.Connection // connections the closer closed (read after the closer has stopped)
	stop := make(chan struct{})
	for g := 0; g < workers; g++ {
		wg.Add(1)
		go func() {
			defer wg.Done()
			for i := 0; i < cycles; i++ {
				ctx := buffer.NewBufferPoolContext(variable.NewVariableContext(context.Background()))
				l := &lease{tok: int(atomic.AddInt32(&tokSeq, 1)), ctx: ctx, cli: -1, recvWanted: true}
				_, sender, reason := w.pool.NewStream(ctx, l)
				if reason != "" || sender == nil {
					atomic.AddInt32(&r.refused, 1)
					time.Sleep(50 * time.Microsecond)
					continue
				}
				l.sender = sender
				sender.GetStream().AddEventListener(l)
				w.mu2.Lock()
				l.idx = len(w.leases)
				w.leases = append(w.leases, l)
				w.mu2.Unlock()
				l.sent = true
				if kind == kHTTP1 {
					h := mosnhttp.RequestHeader{RequestHeader: &fasthttp.RequestHeader{}}
					h.Set("X-Tok", strconv.Itoa(l.tok))
					sender.AppendHeaders(ctx, h, true)
				} else {
					sender.AppendHeaders(ctx, &ppFrame{typ: ppRequest, tok: uint32(l.tok)}, true)
				}
				// the exchange ends: answered, or reset because its connection was closed.  No verdict here: an exchange
				// that is still open after a generous cap is looked at after the run (its connection's state decides)
				if !waitFor(churnCap, func() bool { return !l.live() }) {
					mu.Lock()
					stuck = append(stuck, l)
					mu.Unlock()
					return
				}
				atomic.AddInt32(&r.done, 1)
			}
		}()
	}
	// the closer
	var cwg sync.WaitGroup
	cwg.Add(1)
	go func() {
		defer cwg.Done()
		rng := NewRng(seed)
		for {
			select {
			case <-stop:
				return
			default:
			}
			time.Sleep(time.Duration(100+rng.Intn(400)) * time.Microsecond)
			w.host.mu.Lock()
			var open []int
			for i, c := range w.host.created {
				if c.State() == api.ConnActive {
					open = append(open, i)
				}
			}
			var victim api.Connection
			if len(open) > 0 {
				victim = w.host.created[open[rng.Intn(len(open))]]
			}
			w.host.mu.Unlock()
			if victim != nil {
				if rng.Pct(50) {
					victim.Close(api.NoFlush, api.LocalClose)
					victims = append(victims, victim)
				} else if la := victim.LocalAddr(); la != nil {
					if uc := w.up.byRemote(la.String()); uc != nil {
						uc.c.Close()
						victims = append(victims, victim) // mosn notices the FIN later: the settle phase waits for it
					}
				}
				r.closes++
			}
			// the request gauge has no legitimate transient (incremented before the stream exists for anybody else)
			if g := w.host.HostStats().UpstreamRequestActive.Count(); g < 0 && r.negative == "" {
				r.negative = fmt.Sprintf("upstream_request_active = %d during the run", g)
			}
		}
	}()
	wg.Wait()
	close(stop)
	cwg.Wait()
	// quiescence BY EVENTS: every connection that is closed has delivered its close event to the listener registered behind
	// the pool's own (hookConn.tail), i.e. the pool's handlers have run; every exchange is terminal
	w.host.mu.Lock()
	hooks := append([]*hookConn(nil), w.host.hooks...)
	w.host.mu.Unlock()
	settled := waitFor(churnCap, func() bool {
		for _, v := range victims {
			if v.State() != api.ConnClosed {
				return false // closed by the upstream a moment ago: mosn has not read the FIN yet
			}
		}
		for _, hc := range hooks {
			if hc.ClientConnection.State() == api.ConnClosed && !hc.tail.sawClose() {
				return false
			}
		}
		return true
	})
	w.registerNewClients()
	for _, l := range w.leases {
		if c := w.byConnID[l.connIDOf()]; c != nil {
			l.cli = c.idx
		}
	}
	for _, l := range stuck {
		// grace, again by event: the exchange may have ended while we were settling
		connClosed := l.cli >= 0 && w.clients[l.cli].closedMosnSide()
		if waitFor(5*time.Second, func() bool { return !l.live() }) {
			continue
		}
		if connClosed && settled {
			r.hung = append(r.hung, fmt.Sprintf("stream %d (token %d): its connection %d is closed and the close event was handled by every listener, yet the stream was neither answered nor reset", l.idx, l.tok, l.cli))
		} else {
			r.inconclusive = fmt.Sprintf("stream %d (token %d) still open after %v although the upstream answers at once (connection %d, closed: %v)", l.idx, l.tok, churnCap, l.cli, connClosed)
		}
	}
	if !settled {
		r.inconclusive = fmt.Sprintf("close events still outstanding after %v", churnCap)
	}
	if r.inconclusive != "" {
		r.timeouts = w.timeouts
		return r // no books verdict on a world that did not settle
	}
	fs := &finderState{overlapSeen: map[int]int{}, lostSeen: map[int]bool{}, seen: map[string]bool{}}
	r.findings = w.check(fs, op{K: "churn"}, w.observe(resNone))
	r.findings = append(r.findings, w.recheckDelivered()...)
	r.timeouts = w.timeouts
	return r
}

func (l *lease) connIDOf() uint64 {
	if v, err := variable.Get(l.ctx, types.VariableUpstreamConnectionID); err == nil {
		if id, ok := v.(uint64); ok {
			return id
		}
	}
	return 0
}

func c10churn(run *Run) {
	rounds := run.N(3, 40)
	var mu sync.Mutex
	var res []*churnRes
	var wg sync.WaitGroup
	sem := make(chan struct{}, 6)
	for _, kind := range []poolKind{kHTTP1, kPingPong} {
		for _, mc := range []uint64{0, 1, 3} {
			for i := 0; i < rounds; i++ {
				kind, mc, seed := kind, mc, run.R.U64()
				wg.Add(1)
				sem <- struct{}{}
				go func() {
					defer func() { <-sem; wg.Done() }()
					r := runChurn(kind, mc, 6, 12, seed)
					for try := 0; r.inconclusive != "" && try < 2; try++ {
						first := r.inconclusive
						r = runChurn(kind, mc, 6, 12, seed+uint64(try)+1)
						r.retried = append(r.retried, first)
					}
					mu.Lock()
					res = append(res, r)
					mu.Unlock()
				}()
			}
		}
	}
	wg.Wait()
	seen := map[string]bool{}
	for i, r := range res {
		run.Count(fmt.Sprintf("churn/%s/%d/%d", r.kind, r.maxConn, i), r.closes > 0, "churn:"+r.kind.String())
		run.Sum.Distribution["churn-exchanges-done"] += int(r.done)
		run.Sum.Distribution["churn-refused"] += int(r.refused)
		run.Sum.Distribution["churn-closes"] += r.closes
		for _, t := range r.timeouts {
			run.Sum.Distribution["churn-wait-expired:"+t]++
		}
		replay := map[string]interface{}{"pool": r.kind.String(), "max_connections": r.maxConn, "workers": r.workers, "cycles": r.cycles, "closes": r.closes, "done": r.done, "refused": r.refused}
		fail := func(sig, what string) {
			sig += ":concurrent-churn"
			if !seen[sig] {
				seen[sig] = true
				run.Fail(sig, what, replay)
			} else {
				run.Sum.Distribution["finder:"+sig]++
			}
		}
		for range r.retried {
			run.Sum.Distribution["churn-round-inconclusive-repeated"]++
		}
		for _, h := range r.hung {
			fail(r.kind.String()+":exchange-never-ended-after-connection-close", h)
		}
		if r.inconclusive != "" {
			fail(r.kind.String()+":churn-did-not-settle-three-times", fmt.Sprintf("three consecutive rounds did not settle: %v; %s", r.retried, r.inconclusive))
		}
		if r.negative != "" {
			fail(r.kind.String()+":gauge-negative", r.negative)
		}
		for _, f := range r.findings {
			fail(f.sig, f.what)
		}
	}
}
