package main

import (
	"encoding/json"
	"fmt"
	"os"
	"strings"
	"time"

	. "vh/vhlib"
)

// VH_POOL_PROBE="http1 2 1 new new resp(0) new" prints the observations of one scripted history.
func c09probe(run *Run) int {
	f := strings.Fields(os.Getenv("VH_POOL_PROBE"))
	kind := kHTTP1
	if f[0] == "pingpong" {
		kind = kPingPong
	}
	var mc, mr uint64
	fmt.Sscan(f[1], &mc)
	fmt.Sscan(f[2], &mr)
	var ops []op
	for _, s := range f[3:] {
		o := op{K: s}
		if i := strings.IndexByte(s, '('); i > 0 {
			o.K = s[:i]
			fmt.Sscan(s[i+1:len(s)-1], &o.A)
		}
		ops = append(ops, o)
	}
	t := time.Now()
	h := runOps(kind, mc, mr, ops, true)
	for i, o := range h.ops {
		b, _ := json.Marshal(h.obs[i])
		fmt.Printf("%-14s %s\n", o, b)
	}
	for _, fd := range h.findings {
		fmt.Println("FINDING", fd.sig, "--", fd.what)
	}
	fmt.Println("timeouts:", h.timeouts, "elapsed", time.Since(t))
	fmt.Println(h.coq())
	return 0
}
