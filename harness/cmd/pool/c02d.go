package main

// C02, concurrent id allocation: several goroutines allocate request ids on ONE connection counter through the REAL
// GenerateRequestID of bolt / tars / dubbo (directly, and through the real streamConn.NewStream path) while the counter
// crosses a wrap point.  Any window of allocations smaller than the id space must yield pairwise distinct ids.

import (
	"context"
	"fmt"
	"runtime"
	"sort"
	"sync"
	"sync/atomic"
	"time"

	sx "mosn.io/mosn/pkg/stream/xprotocol"
	"mosn.io/pkg/buffer"
	"mosn.io/pkg/variable"

	. "vh/vhlib"
)

var allocProtos = []struct {
	name  string // protocol whose GenerateRequestID is used
	gen   string // key of genCodecs
	wraps []uint64
}{
	{"bolt", "GenU32", []uint64{1 << 32, 0}},          // 0 stands for 2^64
	{"tars", "GenS32", []uint64{1 << 31, 1 << 32, 0}}, // sign flip, 32-bit wrap, 64-bit wrap
	{"dubbo", "GenU64", []uint64{0, 1 << 32}},
}

func dupIDs(ids []uint64) (dups []uint64) {
	s := append([]uint64(nil), ids...)
	sort.Slice(s, func(i, j int) bool { return s[i] < s[j] })
	for i := 1; i < len(s); i++ {
		if s[i] == s[i-1] && (len(dups) == 0 || dups[len(dups)-1] != s[i]) {
			dups = append(dups, s[i])
		}
	}
	return
}

// allocBatch: g persistent goroutines run `rounds` tight rounds against one counter; every round presets the counter 1..2g
// below the wrap point and releases all goroutines at once through a spin barrier, each then allocates `per` ids.
// Returns the number of rounds with a duplicate and the first such round (base, ids, duplicates).
func allocBatch(gen func(*uint64) uint64, wrap uint64, g, per, rounds int, r *Rng) (bad int, base0 uint64, ids0, dups0 []uint64) {
	var ctr uint64
	var phase, finished int64
	ids := make([]uint64, g*per)
	bases := make([]uint64, rounds)
	for i := range bases {
		bases[i] = wrap - uint64(1+r.Intn(2*g))
	}
	var wg sync.WaitGroup
	for i := 0; i < g; i++ {
		wg.Add(1)
		go func(i int) {
			defer wg.Done()
			for rd := 1; rd <= rounds; rd++ {
				for spins := 0; atomic.LoadInt64(&phase) < int64(rd); spins++ {
					if spins&255 == 255 {
						runtime.Gosched()
					}
				}
				for j := 0; j < per; j++ {
					ids[i*per+j] = gen(&ctr)
				}
				atomic.AddInt64(&finished, 1)
			}
		}(i)
	}
	for rd := 1; rd <= rounds; rd++ {
		atomic.StoreUint64(&ctr, bases[rd-1])
		atomic.StoreInt64(&finished, 0)
		atomic.StoreInt64(&phase, int64(rd))
		for spins := 0; atomic.LoadInt64(&finished) < int64(g); spins++ {
			if spins&255 == 255 {
				runtime.Gosched()
			}
		}
		if d := dupIDs(ids); len(d) > 0 {
			bad++
			if ids0 == nil {
				base0, ids0, dups0 = bases[rd-1], append([]uint64(nil), ids...), d
			}
		}
	}
	wg.Wait()
	return
}

func c02alloc(run *Run) {
	r := run.R
	deadline := time.Now().Add(time.Duration(run.N(5, 45)) * time.Second)
	rounds, allocs, viaConn := 0, 0, 0
	reported := map[string]int{}
	report := func(proto, path string, base uint64, g, per int, ids, dups []uint64) {
		reported[proto]++
		if reported[proto] > 3 {
			return
		}
		show := ids
		if len(show) > 4000 {
			show = show[:4000]
		}
		run.Fail("xconn:duplicate-id-under-concurrent-allocation:"+proto,
			fmt.Sprintf("%d goroutines x %d allocations (%s) from counter %d: %d of %d ids were handed out more than once, e.g. %d", g, per, path, base, len(dups), len(ids), dups[0]),
			map[string]interface{}{"part": "concurrent-allocation", "protocol": proto, "path": path, "counter0": base, "goroutines": g, "per_goroutine": per, "duplicate_ids": dups, "ids": show})
	}
	// tight batches: the wrap points that matter for each protocol, persistent goroutines, spin barrier
	tight := 0
	tightDeadline := time.Now().Add(time.Duration(run.N(2, 25)) * time.Second)
	for b := 0; b < run.N(12, 60) || time.Now().Before(tightDeadline); b++ {
		if b >= run.N(4000, 40000) {
			break
		}
		p := allocProtos[b%len(allocProtos)]
		wrap := p.wraps[0]
		if b%6 >= 3 && len(p.wraps) > 1 {
			wrap = p.wraps[1]
		}
		g := 4 + r.Intn(9)
		per := 2 + r.Intn(5)
		n := run.N(1000, 2000)
		bad, base0, ids0, dups0 := allocBatch(genCodecs[p.gen].gen, wrap, g, per, n, r)
		tight += n
		allocs += n * g * per
		run.Sum.Distribution["alloc-tight-rounds:"+p.name] += n
		if bad > 0 {
			run.Sum.Distribution["alloc-rounds-with-duplicate:"+p.name] += bad
			report(p.name, "GenerateRequestID on a shared counter, spin-barrier start", base0, g, per, ids0, dups0)
		}
	}
	run.Sum.Extra["c02_alloc_tight_rounds"] = tight
	minRounds := run.N(120, 3000)
	for round := 0; round < minRounds || time.Now().Before(deadline); round++ {
		if round >= run.N(40000, 400000) {
			break
		}
		p := allocProtos[round%len(allocProtos)]
		wrap := p.wraps[(round/len(allocProtos))%len(p.wraps)]
		g := 8 + r.Intn(9)
		per := 32 + r.Intn(97)
		// the wrap point is crossed while all goroutines are allocating
		back := uint64(g*per/8 + r.Intn(g*per*3/4))
		if round%2 == 0 {
			// tight rounds: the counter sits just below the wrap point, every goroutine hits it in its first allocations
			// (many more crossings per second: a wrap done in two separate atomic steps shows up within a few hundred rounds)
			per = 4 + r.Intn(13)
			back = uint64(1 + r.Intn(2*g))
		}
		base := wrap - back // uint64 arithmetic: wrap = 0 means 2^64
		ids := make([]uint64, g*per)
		var start, done sync.WaitGroup
		start.Add(1)
		var alloc func() uint64
		path := "GenerateRequestID on a shared counter"
		var w *xworld
		if round%4 == 3 {
			// through the real client stream connection: streamConn.NewStream -> newClientStream -> GenerateRequestID
			path = "streamConn.NewStream"
			viaConn++
			w = newXWorld(p.gen, base)
			alloc = func() uint64 {
				ctx := buffer.NewBufferPoolContext(variable.NewVariableContext(context.Background()))
				return w.cli.NewStream(ctx, &xstreamRec{}).GetStream().ID()
			}
		} else {
			ctr := base
			gen := genCodecs[p.gen].gen
			alloc = func() uint64 { return gen(&ctr) }
		}
		for i := 0; i < g; i++ {
			done.Add(1)
			go func(i int) {
				defer done.Done()
				start.Wait()
				for j := 0; j < per; j++ {
					ids[i*per+j] = alloc()
				}
			}(i)
		}
		start.Done()
		done.Wait()
		rounds++
		allocs += len(ids)
		run.Sum.Distribution["alloc-rounds:"+p.name]++
		if dups := dupIDs(ids); len(dups) > 0 {
			run.Sum.Distribution["alloc-rounds-with-duplicate:"+p.name]++
			report(p.name, path, base, g, per, ids, dups)
		} else if w != nil {
			// no stream may have displaced another one in the client stream table
			if n := len(sx.VerifClientStreamIDs(w.csc)); n != len(ids) {
				run.Fail("xconn:stream-table-lost-entries-under-concurrent-allocation:"+p.name,
					fmt.Sprintf("%d streams created concurrently, %d entries in the client stream table", len(ids), n),
					map[string]interface{}{"part": "concurrent-allocation", "protocol": p.name, "counter0": base})
			}
		}
	}
	run.Count(fmt.Sprintf("alloc|%d", run.Seed), true, "family:concurrent-allocation")
	run.Sum.Extra["c02_alloc_rounds"] = rounds
	run.Sum.Extra["c02_alloc_ids"] = allocs
	run.Sum.Extra["c02_alloc_rounds_via_stream_connection"] = viaConn
}
