package main

import . "vh/vhlib"

func main() {
	Main(map[string]CmdFn{
		"gen": func(a []string) int { return RunGen(gens, a) },
		"c09": c09,
		"c02": c02,
		"c10": c10,
	})
}
