package main

// C02, pooled mode: several real client stream connections in ONE history, every request with its own buffer-pool
// context (buffer.NewBufferPoolContext) that is given back to the real pool when the request ends - as the proxy does
// (downstream.giveStream).  The pooled per-request struct (xprotocol streamBuffers: the xStream itself) is therefore
// reused by later requests, on the same or on another connection.  A connection that was reset is dead afterwards.

import (
	"fmt"
	"strings"

	. "vh/vhlib"
)

type mop struct {
	C int
	O xop
}

type mhist struct {
	gen    string
	c0s    []uint64
	ops    []mop
	obs    []xobsT
	fnd    []xfinding
	kind   string
	reused int
}

func (h *mhist) key() string {
	var b strings.Builder
	fmt.Fprintf(&b, "pooled|%s|%v", h.gen, h.c0s)
	for _, o := range h.ops {
		fmt.Fprintf(&b, "|%d:%s", o.C, o.O)
	}
	return b.String()
}
func (h *mhist) coq() string {
	var steps, c0s []string
	for i, o := range h.ops {
		steps = append(steps, fmt.Sprintf("(%d, %s, %s)", o.C, o.O.coq(), h.obs[i].coq()))
	}
	for _, c := range h.c0s {
		c0s = append(c0s, CoqN(c))
	}
	return fmt.Sprintf("(%s, %s, [%s])", h.gen, CoqList(c0s), strings.Join(steps, ";\n   "))
}
func (h *mhist) descr() map[string]interface{} {
	var ops []string
	for _, o := range h.ops {
		ops = append(ops, fmt.Sprintf("conn%d.%s", o.C, o.O))
	}
	return map[string]interface{}{"mode": "pooled", "generator": h.gen, "counter0": h.c0s, "ops": ops, "obs": h.obs, "family": h.kind, "pooled_struct_reuses": h.reused}
}

// runPooled: "resp" with S>=0 answers the id of stream S of that connection (also when S was reset/released: a late reply)
func runPooled(gen string, c0s []uint64, kind string, script []mop) *mhist {
	ws := make([]*xworld, len(c0s))
	for i, c0 := range c0s {
		ws[i] = newXWorld(gen, c0)
		ws[i].pooled = true
	}
	h := &mhist{gen: gen, c0s: c0s, kind: kind}
	for _, m := range script {
		w := ws[m.C]
		o := m.O
		if w.dead {
			continue
		}
		if o.K == "resp" && o.S >= 0 {
			if o.S >= len(w.streams) {
				continue
			}
			o.ID = w.streams[o.S].id
		}
		if o.K == "reset" && (o.S >= len(w.streams) || w.streams[o.S].released) {
			continue
		}
		ob, fs := w.apply(o)
		h.ops = append(h.ops, mop{m.C, o})
		h.obs = append(h.obs, ob)
		for _, f := range fs {
			h.fnd = append(h.fnd, xfinding{"pooled:" + f.sig, f.what})
		}
	}
	for _, w := range ws {
		h.reused += w.reused
		for _, rec := range w.streams {
			w.release(rec)
		}
	}
	return h
}

func c02pooled(run *Run) {
	r := run.R
	header := "From MV Require Import Model.XConn.\nFrom Coq Require Import List NArith Bool.\nImport ListNotations.\nOpen Scope nat_scope.\n"
	sh := run.NewShard(header, "xmulti_case", "xmulti_mismatches")
	var hs []*mhist
	n := func(c int) mop { return mop{c, xop{K: "new"}} }
	resp := func(c, s int) mop { return mop{c, xop{K: "resp", S: s}} }
	reset := func(c, s int) mop { return mop{c, xop{K: "reset", S: s}} }
	creset := func(c int) mop { return mop{c, xop{K: "connreset"}} }
	for _, g := range []string{"GenU32", "GenS32", "GenU64"} {
		c0 := map[string][]uint64{"GenU32": {0, 1<<32 - 2, 7}, "GenS32": {0, 1<<31 - 2, 9}, "GenU64": {0, 1<<64 - 2, 11}}[g]
		// scripted: a request in flight when its connection is reset; later requests on a healthy connection reuse the pooled
		// struct, one of them is reset locally (time-out) and answered late while its successor is in flight
		for a := 1; a <= 3; a++ {
			for b := 1; b <= 3; b++ {
				var sc []mop
				for i := 0; i < a; i++ {
					sc = append(sc, n(0))
				}
				sc = append(sc, creset(0))
				for i := 0; i < b; i++ {
					sc = append(sc, n(1))
				}
				for i := 0; i < b; i++ {
					sc = append(sc, reset(1, i))
				}
				for i := 0; i < b; i++ {
					sc = append(sc, n(1))
				}
				for i := 0; i < b; i++ {
					sc = append(sc, resp(1, i)) // late replies for the reset requests
				}
				for i := 0; i < b; i++ {
					sc = append(sc, resp(1, b+i))
				}
				hs = append(hs, runPooled(g, []uint64{c0[0], c0[1]}, "pooled-late", sc))
			}
		}
		// random over 2-3 connections
		nr := run.N(300, 5000)
		for i := 0; i < nr; i++ {
			k := 2 + r.Intn(2)
			c0s := make([]uint64, k)
			for j := range c0s {
				c0s[j] = c0[r.Intn(len(c0))]
				if r.Pct(15) {
					c0s[j] = r.U64()
				}
			}
			ns := make([]int, k)
			var sc []mop
			L := 10 + r.Intn(run.N(30, 40))
			for j := 0; j < L; j++ {
				c := r.Intn(k)
				switch x := r.Intn(100); {
				case x < 34 || ns[c] == 0:
					sc = append(sc, n(c))
					ns[c]++
				case x < 38:
					sc = append(sc, mop{c, xop{K: "oneway"}})
					ns[c]++
				case x < 70:
					sc = append(sc, resp(c, r.Intn(ns[c]))) // in flight, completed or reset: answered, duplicate or late
				case x < 74:
					sc = append(sc, mop{c, xop{K: "resp", S: -1, ID: r.U64()}})
				case x < 94:
					sc = append(sc, reset(c, r.Intn(ns[c])))
				default:
					sc = append(sc, creset(c))
				}
			}
			hs = append(hs, runPooled(g, c0s, "pooled-random", sc))
		}
	}
	reused := 0
	for _, h := range hs {
		reused += h.reused
		nconn := map[int]bool{}
		for _, o := range h.ops {
			nconn[o.C] = true
			run.Sum.Distribution["pooled-op:"+o.O.K]++
		}
		run.Count(h.key(), len(nconn) >= 2, "family:"+h.kind, "generator:"+h.gen)
		for _, f := range h.fnd {
			run.Fail(f.sig, f.what, h.descr())
		}
		sh.Add(h.coq(), h.descr())
		if sh.Len() >= 80 {
			sh.Close()
			sh = run.NewShard(header, sh.Typ, sh.Eval)
		}
		if h.kind == "pooled-late" {
			run.Sample(h.descr())
		}
	}
	sh.Close()
	run.Sum.Distribution["pooled-struct-reused"] = reused
	run.Sum.Extra["c02_pooled_histories"] = len(hs)
	run.Sum.Extra["c02_pooled_struct_reuses"] = reused
}
