package main

// C09, multiplex pool (pkg/stream/xprotocol/connpool_multiplex.go): the REAL poolMultiplex with one slot
// (max_connections = default 1) driven with histories of {CheckAndInit (dial ok / refused), NewStream, response,
// local reset, connection close (every close event kind), go-away frame, Shutdown}; after every op the slot
// (state word + which connection it holds), the connection states, the Requests resource and the per-stream event
// counts are compared with Model/PoolMx.v; the finder checks on the observed truth that every open connection is either
// the pool's current one or a go-away connection still draining a stream, that no stream is leased on a go-away or
// closed connection, and that the Requests resource equals the live streams.

import (
	"context"
	"fmt"
	"strings"
	"sync"
	"sync/atomic"
	"time"

	sx "mosn.io/mosn/pkg/stream/xprotocol"
	"mosn.io/mosn/pkg/types"
	"mosn.io/pkg/buffer"
	"mosn.io/pkg/variable"

	. "vh/vhlib"
)

type mxworld struct {
	*world
	goawaySent map[int]bool // truth: a go-away frame was delivered to this connection
}

func newMxWorld(maxReq uint64) (*mxworld, error) {
	w, err := newWorld(kPingPong, 0, maxReq) // upstream speaks the vh frame format; the ping-pong pool of `world` is not used
	if err != nil {
		return nil, err
	}
	w.pool = sx.NewConnPool(context.Background(), mxCodecInst, w.host)
	return &mxworld{world: w, goawaySent: map[int]bool{}}, nil
}

const (
	resReadyTrue  = 5
	resReadyFalse = 6
)

type mobs struct {
	Res       int         `json:"res"`
	ResCli    int         `json:"res_cli"`
	SlotState int         `json:"slot_state"` // -1 empty, else the state word of the entry (1 connecting, 2 connected, 3 go-away)
	SlotCli   int         `json:"slot_cli"`   // connection number held by the slot, -1 for none / placeholder
	Req       int64       `json:"req"`
	Closed    []bool      `json:"closed"`
	Streams   []streamObs `json:"streams"`
}

func (w *mxworld) slot() (int, int) {
	st, id, _ := sx.VerifMultiplexState(w.pool, 0)
	ci := -1
	if c := w.byConnID[id]; c != nil && id != 0 {
		ci = c.idx
	}
	return st, ci
}

func (w *mxworld) mobserve(res int) mobs {
	o := mobs{Res: res, ResCli: -1, Req: w.rm.Requests().Cur()}
	if res == resLeased {
		o.ResCli = w.leases[len(w.leases)-1].cli
	}
	o.SlotState, o.SlotCli = w.slot()
	for _, c := range w.clients {
		o.Closed = append(o.Closed, c.closedMosnSide())
	}
	for _, l := range w.leases {
		r, d, _, rs := l.snap()
		o.Streams = append(o.Streams, streamObs{Live: d == 0, Recv: r, Destroys: d, Reset: resetCode(rs)})
	}
	return o
}

func (w *mxworld) liveOn(c int) []*lease {
	var out []*lease
	for _, l := range w.leases {
		if l.cli == c && l.live() {
			out = append(out, l)
		}
	}
	return out
}

func (w *mxworld) mapply(o op) int {
	switch o.K {
	case "init", "initfail":
		w.host.mu.Lock()
		w.host.fail = dialOK
		if o.K == "initfail" {
			w.host.fail = dialRefused
		}
		w.host.mu.Unlock()
		ok := w.pool.CheckAndInit(variable.NewVariableContext(context.Background()))
		// the init goroutine runs to completion (or does nothing after Shutdown)
		w.wait("init", 2*time.Second, func() bool {
			st, _, _ := sx.VerifMultiplexState(w.pool, 0)
			return st != 1 || sx.VerifMultiplexShutdown(w.pool)
		})
		time.Sleep(50 * time.Microsecond)
		w.host.mu.Lock()
		w.host.fail = dialOK
		w.host.mu.Unlock()
		w.registerNewClients()
		if ok {
			return resReadyTrue
		}
		return resReadyFalse
	case "initclosefin", "initcloserst":
		// the upstream closes the fresh connection on accept and Connect() returns only after mosn noticed: the close event
		// is delivered between the successful dial and the store of the client in the slot
		mode, ev := "fin", "EvRemote"
		if o.K == "initcloserst" {
			mode, ev = "rst", "EvReadErr"
		}
		nc, nf := len(w.clients), w.failedDials
		w.armWindow(mode)
		ok := w.pool.CheckAndInit(variable.NewVariableContext(context.Background()))
		w.wait("init", 2*time.Second, func() bool {
			st, _, _ := sx.VerifMultiplexState(w.pool, 0)
			return st != 1 || sx.VerifMultiplexShutdown(w.pool)
		})
		time.Sleep(50 * time.Microsecond)
		w.armWindow("")
		w.settleWindow()
		w.registerNewClients()
		if len(w.clients) > nc {
			c := w.clients[nc]
			// the close event (possibly waiting for the pool's lock while init stored the client) runs to completion
			waitFor(100*time.Millisecond, func() bool { st, ci := w.slot(); return !(ci == c.idx && st == 2) })
			w.lastCoq = []string{"MInit DialOk", fmt.Sprintf("MConnClose %d %s", nc, ev)}
		} else if w.failedDials > nf {
			w.lastCoq = []string{"MInit DialRefused"} // the RST reached the dialler first: a failed dial
		} else {
			w.lastCoq = []string{"MInit DialOk"}
		}
		if ok {
			return resReadyTrue
		}
		return resReadyFalse
	case "new":
		ctx := buffer.NewBufferPoolContext(variable.NewVariableContext(context.Background()))
		l := &lease{idx: len(w.leases), tok: len(w.leases) + 100, ctx: ctx, cli: -1}
		_, sender, reason := w.pool.NewStream(ctx, l)
		switch reason {
		case "":
		case types.Overflow:
			return resOverflow
		case types.ConnectionFailure:
			return resConnFail
		default:
			return resOther
		}
		l.sender = sender
		if v, err := variable.Get(ctx, types.VariableUpstreamConnectionID); err == nil {
			if id, ok := v.(uint64); ok {
				if c := w.byConnID[id]; c != nil {
					l.cli = c.idx
				}
			}
		}
		sender.GetStream().AddEventListener(l)
		w.leases = append(w.leases, l)
		w.send(l)
		return resLeased
	case "resp":
		w.respond(w.leases[o.A], false)
	case "lreset":
		w.localReset(w.leases[o.A])
	case "closer", "closel", "closerst", "closereaderr", "closewerr", "closewto":
		c := w.clients[o.A]
		held := w.liveOn(c.idx)
		how := map[string]string{"closer": "fin", "closel": "local", "closerst": "rst", "closereaderr": "readerr", "closewerr": "writeerr", "closewto": "writetimeout"}[o.K]
		w.connClose(c, how)
		for _, l := range held {
			l := l
			w.wait("reset-after-close", time.Second, func() bool { return !l.live() })
		}
	case "goaway":
		c := w.clients[o.A]
		if c.up == nil || c.closedMosnSide() {
			return resNone
		}
		c.up.mu.Lock()
		before := c.up.hbAcks
		c.up.mu.Unlock()
		c.up.write(append(ppFrameBytes(ppGoAway, 0, 0), ppFrameBytes(ppHB, 0, 0)...))
		w.goawaySent[c.idx] = true
		w.wait("goaway-barrier", time.Second, func() bool {
			if atomic.LoadInt32(&c.closeEvs) > 0 {
				return true
			}
			c.up.mu.Lock()
			defer c.up.mu.Unlock()
			return c.up.hbAcks > before
		})
	case "shutdown":
		w.pool.Shutdown()
		w.wait("shutdown", time.Second, func() bool { return sx.VerifMultiplexShutdown(w.pool) })
	case "extinc":
		w.extReq(true)
	case "extdec":
		w.extReq(false)
	}
	return resNone
}

func (w *mxworld) menabled(full bool) []op {
	ops := []op{{K: "init"}, {K: "new"}, {K: "initclosefin"}}
	if full {
		ops = append(ops, op{K: "initfail"}, op{K: "initcloserst"})
	}
	for _, l := range w.leases {
		if l.live() {
			ops = append(ops, op{"resp", l.idx}, op{"lreset", l.idx})
		}
	}
	for _, c := range w.clients {
		if c.closedMosnSide() || c.up == nil {
			continue
		}
		ops = append(ops, op{"closer", c.idx}, op{"goaway", c.idx})
		if full {
			ops = append(ops, op{"closel", c.idx}, op{"closerst", c.idx}, op{"closewerr", c.idx})
		}
	}
	if full {
		ops = append(ops, op{K: "shutdown"})
		if w.maxReq != 0 {
			ops = append(ops, op{K: "extinc"})
			if w.ext > 0 {
				ops = append(ops, op{K: "extdec"})
			}
		}
	}
	return ops
}

func (w *mxworld) mcheck(fs *finderState, o op, ob mobs) []finding {
	var out []finding
	opClass := o.K
	if ob.Res != resNone {
		opClass += "-" + map[int]string{resLeased: "leased", resOverflow: "overflow", resConnFail: "connfail", resReadyTrue: "ready", resReadyFalse: "notready", resOther: "other"}[ob.Res]
	}
	add := func(sig, what string) { out = append(out, finding{"multiplex:" + sig, what}) }
	nlive := 0
	for _, l := range w.leases {
		recv, destroys, foreign, _ := l.snap()
		if destroys == 0 {
			nlive++
		}
		if destroys > 1 {
			add("stream-destroyed-twice", fmt.Sprintf("stream %d saw %d OnDestroyStream calls", l.idx, destroys))
		}
		if recv > 1 {
			add("response-delivered-twice", fmt.Sprintf("stream %d received %d responses", l.idx, recv))
		}
		if foreign > 0 {
			add("foreign-response", fmt.Sprintf("stream %d received an answer carrying another token", l.idx))
		}
	}
	if ob.Res == resLeased && ob.ResCli >= 0 {
		c := w.clients[ob.ResCli]
		if c.closedMosnSide() {
			add("closed-connection-leased", fmt.Sprintf("a stream was created on connection %d, which is closed", c.idx))
		}
		if w.goawaySent[c.idx] {
			add("stream-created-on-goaway-connection", fmt.Sprintf("a stream was created on connection %d after its go-away", c.idx))
		}
	}
	for _, c := range w.clients {
		nl := len(w.liveOn(c.idx))
		if c.closedMosnSide() {
			if nl > 0 && fs.first(fmt.Sprint("live-on-closed", c.idx)) {
				why := ""
				if w.goawaySent[c.idx] {
					why = ":goaway-connection"
				}
				add("stream-not-reset-after-connection-close"+why+":after-"+opClass, fmt.Sprintf("connection %d is closed but %d of its streams were never reset/destroyed", c.idx, nl))
			}
			if ob.SlotCli == c.idx && ob.SlotState == 2 && fs.first(fmt.Sprint("closed-in-pool", c.idx)) {
				add("closed-connection-stored-as-connected:after-"+opClass, fmt.Sprintf("the pool's slot holds connection %d as Connected although it is closed", c.idx))
			}
			continue
		}
		if ob.SlotCli == c.idx {
			continue
		}
		// open and not the pool's current connection: only a go-away connection that still drains a stream may be in that state
		if w.goawaySent[c.idx] && nl > 0 {
			continue
		}
		if w.goawaySent[c.idx] && nl == 0 {
			if fs.first(fmt.Sprint("drained", c.idx)) {
				add("drained-goaway-connection-not-closed:after-"+opClass, fmt.Sprintf("connection %d received go-away, has no stream left, is not the pool's current connection, and is still open", c.idx))
			}
			continue
		}
		if fs.first(fmt.Sprint("orphan", c.idx)) {
			add("open-connection-dropped-from-pool:after-"+opClass, fmt.Sprintf("connection %d is open and healthy (%d live streams) but the pool no longer holds it (slot: state %d, connection %d)", c.idx, nl, ob.SlotState, ob.SlotCli))
		}
	}
	nopen := 0
	for _, c := range w.clients {
		if !c.closedMosnSide() {
			nopen++
		}
	}
	if ga, gc := w.host.HostStats().UpstreamConnectionActive.Count(), w.host.ClusterInfo().Stats().UpstreamConnectionActive.Count(); (ga != int64(nopen) || gc != int64(nopen)) && fs.first(fmt.Sprint("conn-gauge", ga-int64(nopen), gc-int64(nopen))) {
		sig := "connection-active-differs-from-open-connections"
		if ga < 0 || gc < 0 {
			sig = "connection-active-negative"
		}
		add(sig+":after-"+opClass, fmt.Sprintf("upstream_connection_active host=%d cluster=%d but %d connections of the pool are open", ga, gc, nopen))
	}
	wantReq := int64(nlive + w.ext) // the resource counts for every max_requests, 0 (unlimited) included
	if ob.Req != wantReq && fs.first(fmt.Sprint("req", ob.Req-wantReq)) {
		add("requests-counter-differs:after-"+opClass, fmt.Sprintf("Requests().Cur()=%d but %d streams are live (+%d held externally)", ob.Req, nlive, w.ext))
	}
	return out
}

func hungContext(w *mxworld, o op) string {
	if strings.HasPrefix(o.K, "close") && o.A < len(w.clients) {
		c := w.clients[o.A]
		if w.goawaySent[c.idx] && len(w.liveOn(c.idx)) > 0 {
			return ":goaway-connection-with-live-stream"
		}
	}
	return ""
}

type mxhist struct {
	coqOps   [][]string
	hung     bool
	maxReq   uint64
	ops      []op
	obs      []mobs
	findings []finding
	timeouts []string
}

func (h *mxhist) key() string {
	var b strings.Builder
	fmt.Fprintf(&b, "mx|%d", h.maxReq)
	for _, o := range h.ops {
		b.WriteString("|" + o.String())
	}
	return b.String()
}

func mxOpCoq(o op) string {
	switch o.K {
	case "init", "initclosefin", "initcloserst":
		return "MInit DialOk"
	case "initfail":
		return "MInit DialRefused"
	case "new":
		return "MNew"
	case "resp":
		return fmt.Sprintf("MResponse %d", o.A)
	case "lreset":
		return fmt.Sprintf("MReset %d", o.A)
	case "closer":
		return fmt.Sprintf("MConnClose %d EvRemote", o.A)
	case "closel":
		return fmt.Sprintf("MConnClose %d EvLocal", o.A)
	case "closerst", "closereaderr":
		return fmt.Sprintf("MConnClose %d EvReadErr", o.A)
	case "closewerr":
		return fmt.Sprintf("MConnClose %d EvWriteErr", o.A)
	case "closewto":
		return fmt.Sprintf("MConnClose %d EvWriteTimeout", o.A)
	case "goaway":
		return fmt.Sprintf("MGoAway %d", o.A)
	case "shutdown":
		return "MShutdown"
	case "extinc":
		return "MExtReq true"
	case "extdec":
		return "MExtReq false"
	}
	panic("mx op " + o.K)
}

func (ob mobs) coq() string {
	res := "MRN"
	switch ob.Res {
	case resLeased:
		res = "MRX"
		if ob.ResCli >= 0 {
			res = fmt.Sprintf("MRL %d", ob.ResCli)
		}
	case resOverflow:
		res = "MRO"
	case resConnFail:
		res = "MRF"
	case resReadyTrue:
		res = "MRReady true"
	case resReadyFalse:
		res = "MRReady false"
	case resOther:
		res = "MRX"
	}
	var closed, streams []string
	for _, c := range ob.Closed {
		closed = append(closed, CoqBool(c))
	}
	for _, s := range ob.Streams {
		streams = append(streams, fmt.Sprintf("(%v,%d,%d,%d)", s.Live, s.Recv, s.Destroys, s.Reset))
	}
	slotCli := "None"
	if ob.SlotCli >= 0 {
		slotCli = fmt.Sprintf("(Some %d)", ob.SlotCli)
	}
	return fmt.Sprintf("(%s, %s, %s, %s, %s, %s)", res, CoqZ(int64(ob.SlotState)), slotCli, CoqZ(ob.Req), CoqList(closed), CoqList(streams))
}

func (h *mxhist) coq() string {
	var steps []string
	for i, o := range h.ops {
		_ = o
		steps = append(steps, fmt.Sprintf("(%s, %s)", CoqList(h.coqOps[i]), h.obs[i].coq()))
	}
	return fmt.Sprintf("(%s, [%s])", CoqZ(int64(h.maxReq)), strings.Join(steps, ";\n   "))
}

func (h *mxhist) descr() map[string]interface{} {
	var ops []string
	for _, o := range h.ops {
		ops = append(ops, o.String())
	}
	return map[string]interface{}{"pool": "multiplex", "max_requests": h.maxReq, "ops": ops, "obs": h.obs, "timeouts": h.timeouts}
}

func runMx(maxReq uint64, depth int, full bool, pick func(step int, en []op) *op) *mxhist {
	w, err := newMxWorld(maxReq)
	if err != nil {
		panic(err)
	}
	h := &mxhist{maxReq: maxReq}
	defer func() {
		if !h.hung {
			w.close()
		}
	}()
	fs := &finderState{overlapSeen: map[int]int{}, lostSeen: map[int]bool{}, seen: map[string]bool{}}
	for step := 0; step < depth; step++ {
		o := pick(step, w.menabled(full))
		if o == nil {
			break
		}
		// watchdog: an operation that never returns (a self-deadlock inside the pool / stream layer) is a finding
		resCh := make(chan int, 1)
		oc := *o
		w.lastCoq = nil
		go func() { resCh <- w.mapply(oc) }()
		var res int
		select {
		case res = <-resCh:
			if w.lastCoq == nil {
				w.lastCoq = []string{mxOpCoq(*o)}
			}
			h.coqOps = append(h.coqOps, w.lastCoq)
		case <-time.After(4 * time.Second):
			h.ops = append(h.ops, *o)
			h.coqOps = append(h.coqOps, []string{mxOpCoq(*o)})
			h.obs = append(h.obs, mobs{Res: resOther, ResCli: -1, SlotState: -9, SlotCli: -1})
			h.findings = append(h.findings, finding{"multiplex:operation-never-returned:" + o.K + hungContext(w, *o), fmt.Sprintf("%s did not return within 4 s", o)})
			h.timeouts = append(w.timeouts, "hung:"+o.K)
			h.hung = true
			return h // the world is abandoned (its goroutine is stuck)
		}
		ob := w.mobserve(res)
		h.ops = append(h.ops, *o)
		h.obs = append(h.obs, ob)
		h.findings = append(h.findings, w.mcheck(fs, *o, ob)...)
	}
	for _, f := range w.recheckDelivered() {
		h.findings = append(h.findings, finding{strings.Replace(f.sig, "pingpong:", "multiplex:", 1), f.what})
	}
	h.timeouts = w.timeouts
	return h
}

func c09mx(run *Run) {
	var mu sync.Mutex
	var results []*mxhist
	collect := func(h *mxhist) { mu.Lock(); results = append(results, h); mu.Unlock() }
	var jobs []func()
	depth := run.N(5, 7)
	for _, mr := range []uint64{0, 1, 2} {
		mr := mr
		jobs = append(jobs, func() {
			ch := &chooser{}
			for {
				collect(runMx(mr, depth, false, func(step int, en []op) *op { return &en[ch.choose(len(en))] }))
				if !ch.next() {
					break
				}
			}
		})
	}
	// family "drain-close": init, k streams, answered in every order (optionally after a go-away), the connection closed with
	// every close kind, re-init, k new streams
	mxClose := []string{"closer", "closerst", "closel", "closereaderr", "closewerr", "closewto"}
	for k := 2; k <= 4; k++ {
		for pi, order := range permutations(k) {
			for variant := 0; variant < 3; variant++ {
				ops := []op{{K: "init"}, {K: "init"}}
				for i := 0; i < k; i++ {
					ops = append(ops, op{K: "new"})
				}
				if variant == 1 {
					ops = append(ops, op{"goaway", 0}, op{K: "init"}, op{K: "new"})
				}
				for j, i := range order {
					if variant == 2 && j == k-1 {
						break // close with one stream still in flight
					}
					ops = append(ops, op{"resp", i})
				}
				ops = append(ops, op{mxClose[(pi+variant)%len(mxClose)], 0}, op{K: "init"}, op{K: "init"})
				for i := 0; i < k; i++ {
					ops = append(ops, op{K: "new"})
				}
				jobs = append(jobs, func() {
					collect(runMx(0, len(ops), true, func(step int, en []op) *op {
						o := ops[step]
						// a scripted op on a connection that is already closed / a stream that already ended is skipped by the world
						return &o
					}))
				})
			}
		}
	}
	nrand := run.N(600, 8000)
	seeds := make([]uint64, nrand)
	for i := range seeds {
		seeds[i] = run.R.U64()
	}
	for i := 0; i < nrand; i++ {
		i := i
		jobs = append(jobs, func() {
			r := NewRng(seeds[i])
			n := 8 + r.Intn(run.N(23, 33))
			collect(runMx(uint64(r.Intn(3)), n, true, func(step int, en []op) *op {
				if r.Pct(30) {
					return &en[r.Intn(2)] // init / new
				}
				return &en[r.Intn(len(en))]
			}))
		})
	}
	var wg sync.WaitGroup
	jc := make(chan func())
	for i := 0; i < 12; i++ {
		wg.Add(1)
		go func() {
			defer wg.Done()
			for j := range jc {
				j()
			}
		}()
	}
	for _, j := range jobs {
		jc <- j
	}
	close(jc)
	wg.Wait()
	header := "From MV Require Import Gen.PoolSrc Model.Pool Model.PoolMx.\nFrom Coq Require Import List ZArith Bool.\nImport ListNotations.\nOpen Scope nat_scope.\n"
	sh := run.NewShard(header, "mx_case", "mx_mismatches poolmx_src_switches")
	for _, h := range results {
		nontrivial := false
		for i, o := range h.ops {
			if o.K == "goaway" || strings.HasPrefix(o.K, "close") || o.K == "lreset" {
				nontrivial = true
			}
			run.Sum.Distribution["mx-op:"+o.K]++
			_ = i
		}
		run.Count(h.key(), nontrivial, "pool:multiplex", fmt.Sprintf("mxlen=%d", len(h.ops)))
		if len(h.timeouts) > 0 {
			run.Sum.Distribution["mx-wait-expired"]++
		}
		for _, f := range h.findings {
			run.Fail(f.sig, f.what, h.descr())
		}
		sh.Add(h.coq(), h.descr())
		if sh.Len() >= 300 {
			sh.Close()
			sh = run.NewShard(header, sh.Typ, sh.Eval)
		}
	}
	sh.Close()
	run.Sum.Extra["c09_multiplex_histories"] = len(results)
}
