// Package vhlib: shared plumbing of the verification harness binaries (one binary per property group under cmd/).
package vhlib

import (
	"crypto/sha256"
	"encoding/hex"
	"encoding/json"
	"flag"
	"fmt"
	"go/ast"
	"go/parser"
	"go/token"
	"os"
	"path/filepath"
	"sort"
	"strings"
)

// ---------------------------------------------------------------------------
// PRNG: every random choice of a run derives from one splitmix64 state.

type Rng struct{ s uint64 }

// NewRng scrambles the seed first so that consecutive seeds give unrelated streams
// (seed*C+c0 would make seed k+1 the stream of seed k shifted by one draw).
func NewRng(seed uint64) *Rng {
	z := seed + 0x9E3779B97F4A7C15
	z = (z ^ (z >> 30)) * 0xBF58476D1CE4E5B9
	z = (z ^ (z >> 27)) * 0x94D049BB133111EB
	z ^= z >> 31
	return &Rng{s: z ^ 0xD1B54A32D192ED03}
}

func (r *Rng) U64() uint64 {
	r.s += 0x9E3779B97F4A7C15
	z := r.s
	z = (z ^ (z >> 30)) * 0xBF58476D1CE4E5B9
	z = (z ^ (z >> 27)) * 0x94D049BB133111EB
	return z ^ (z >> 31)
}
func (r *Rng) Intn(n int) int {
	if n <= 0 {
		return 0
	}
	return int(r.U64() % uint64(n))
}
func (r *Rng) Bool() bool               { return r.U64()&1 == 1 }
func (r *Rng) Pct(p int) bool           { return r.Intn(100) < p }
func (r *Rng) Pick(xs []int) int        { return xs[r.Intn(len(xs))] }
func (r *Rng) PickS(xs []string) string { return xs[r.Intn(len(xs))] }
func (r *Rng) Bytes(n int) []byte {
	b := make([]byte, n)
	for i := range b {
		b[i] = byte(r.U64())
	}
	return b
}

// ---------------------------------------------------------------------------
// Run context shared by every property sub-command.

type Failure struct {
	Signature string      `json:"signature"` // matched against known_findings.json
	What      string      `json:"what"`
	Replay    interface{} `json:"replay"` // concrete input / history on which the implementation breaks the property
}

type Summary struct {
	Property     string                 `json:"property"`
	Tier         string                 `json:"tier"`
	Seed         uint64                 `json:"seed"`
	Evaluations  int                    `json:"evaluations"`
	Nontrivial   int                    `json:"distinct_nontrivial"`
	Rule         string                 `json:"rule"`
	Samples      []interface{}          `json:"samples"`
	Distribution map[string]int         `json:"distribution"`
	Failures     []Failure              `json:"property_failures"`
	Shards       []string               `json:"shards"`
	CaseIndex    map[string]interface{} `json:"case_index,omitempty"` // "shard:idx" -> case description (only kept for a bounded number)
	Exhaustive   bool                   `json:"exhaustive"`
	Extra        map[string]interface{} `json:"extra,omitempty"`
	distinct     map[string]bool
	failSeen     map[string]int
}

type Run struct {
	Prop    string
	Tier    string
	Seed    uint64
	Out     string
	Replay  string
	R       *Rng
	Sum     *Summary
	shardNo int
}

func NewRun(prop string, args []string) *Run {
	fs := flag.NewFlagSet(prop, flag.ExitOnError)
	tier := fs.String("tier", "quick", "quick|thorough")
	seed := fs.Uint64("seed", 1, "seed")
	out := fs.String("out", "", "output directory")
	replay := fs.String("replay", "", "replay file")
	fs.Parse(args)
	if *out == "" {
		*out = filepath.Join(os.TempDir(), "vh-"+prop)
	}
	os.MkdirAll(*out, 0o755)
	return &Run{Prop: prop, Tier: *tier, Seed: *seed, Out: *out, Replay: *replay, R: NewRng(*seed),
		Sum: &Summary{Property: prop, Tier: *tier, Seed: *seed, Distribution: map[string]int{},
			distinct: map[string]bool{}, failSeen: map[string]int{}, CaseIndex: map[string]interface{}{}, Extra: map[string]interface{}{}}}
}

func (r *Run) Thorough() bool { return r.Tier == "thorough" }

// N returns q in the quick tier, t in the thorough tier.
func (r *Run) N(q, t int) int {
	if r.Thorough() {
		return t
	}
	return q
}

// Count records one evaluated case; key identifies the case (for the distinct count),
// nontrivial says whether it is non-trivial by the rule the sub-command states.
func (r *Run) Count(key string, nontrivial bool, kinds ...string) {
	r.Sum.Evaluations++
	if nontrivial {
		h := sha256.Sum256([]byte(key))
		k := hex.EncodeToString(h[:8])
		if !r.Sum.distinct[k] {
			r.Sum.distinct[k] = true
			r.Sum.Nontrivial++
		}
	}
	for _, k := range kinds {
		r.Sum.Distribution[k]++
	}
}

func (r *Run) Sample(v interface{}) {
	if len(r.Sum.Samples) < 6 {
		r.Sum.Samples = append(r.Sum.Samples, v)
	}
}

// Fail records a failure of the PROPERTY ITSELF observed on the implementation
// (the finder).  At most 3 replays are kept per signature.
func (r *Run) Fail(sig, what string, replay interface{}) {
	r.Sum.failSeen[sig]++
	if r.Sum.failSeen[sig] > 3 {
		return
	}
	r.Sum.Failures = append(r.Sum.Failures, Failure{Signature: sig, What: what, Replay: replay})
}

func (r *Run) Finish() int {
	for sig, n := range r.Sum.failSeen {
		r.Sum.Distribution["finder:"+sig] = n
	}
	b, _ := json.MarshalIndent(r.Sum, "", " ")
	if err := os.WriteFile(filepath.Join(r.Out, "summary.json"), b, 0o644); err != nil {
		fmt.Fprintln(os.Stderr, err)
		return 2
	}
	return 0
}

// ---------------------------------------------------------------------------
// Coq case-file writer.  A shard is a Coq file
//   <header>
//   Definition cases : list T := [ c1; c2; ... ].
//   Definition M := Eval vm_compute in <mismatch function> cases.  Print M.
// The orchestrator greps the coqc output for "M = []".

type Shard struct {
	run    *Run
	name   string
	Header string
	Typ    string
	Eval   string
	items  []string
	descr  []interface{}
}

func (r *Run) NewShard(header, typ, eval string) *Shard {
	r.shardNo++
	return &Shard{run: r, name: fmt.Sprintf("%s_%d", r.Prop, r.shardNo), Header: header, Typ: typ, Eval: eval}
}

// Add appends one case (Coq term) together with a JSON-able description used in reports.
func (s *Shard) Add(term string, descr interface{}) {
	s.items = append(s.items, term)
	s.descr = append(s.descr, descr)
}

func (s *Shard) Len() int { return len(s.items) }

func (s *Shard) Close() {
	if len(s.items) == 0 {
		return
	}
	var b strings.Builder
	b.WriteString(s.Header)
	b.WriteString("\nDefinition cases : list (" + s.Typ + ") := [\n")
	for i, it := range s.items {
		if i > 0 {
			b.WriteString(";\n")
		}
		b.WriteString(" " + it)
	}
	b.WriteString("\n].\n")
	b.WriteString("Definition M := Eval vm_compute in " + s.Eval + " cases.\nPrint M.\n")
	p := filepath.Join(s.run.Out, s.name+".v")
	os.WriteFile(p, []byte(b.String()), 0o644)
	s.run.Sum.Shards = append(s.run.Sum.Shards, s.name+".v")
	// keep descriptions so that a mismatch index can be mapped back to the case
	db, _ := json.Marshal(s.descr)
	os.WriteFile(filepath.Join(s.run.Out, s.name+".cases.json"), db, 0o644)
}

// ---------------------------------------------------------------------------
// Coq term printers.

func CoqZ(v int64) string {
	if v < 0 {
		return fmt.Sprintf("(%d)%%Z", v)
	}
	return fmt.Sprintf("%d%%Z", v)
}
func CoqN(v uint64) string { return fmt.Sprintf("%d%%N", v) }
func CoqNat(v int) string  { return fmt.Sprintf("%d%%nat", v) }
func CoqBool(b bool) string {
	if b {
		return "true"
	}
	return "false"
}

// CoqString prints an ASCII string literal (Coq string scope); non-printable bytes are not supported here.
func CoqString(s string) string {
	return "\"" + strings.ReplaceAll(s, "\"", "\"\"") + "\"%string"
}

// CoqBytes prints a byte string as list N, run-length compressed:
//
//	[1;2;3] ++ repeat 7 1000 ++ [...]
func CoqBytes(b []byte) string {
	if len(b) == 0 {
		return "(@nil N)"
	}
	var parts []string
	i := 0
	var lit []string
	flush := func() {
		if len(lit) > 0 {
			parts = append(parts, "["+strings.Join(lit, ";")+"]")
			lit = nil
		}
	}
	for i < len(b) {
		j := i
		for j < len(b) && b[j] == b[i] {
			j++
		}
		if j-i >= 16 {
			flush()
			parts = append(parts, fmt.Sprintf("repeat %d (N.to_nat %d)", b[i], j-i))
			i = j
		} else {
			lit = append(lit, fmt.Sprintf("%d", b[i]))
			i++
		}
	}
	flush()
	return "(" + strings.Join(parts, " ++ ") + ")%N"
}

func CoqList(items []string) string { return "[" + strings.Join(items, "; ") + "]" }

func CoqOption(some bool, v string) string {
	if some {
		return "(Some " + v + ")"
	}
	return "None"
}

func Hex(b []byte) string { return hex.EncodeToString(b) }

func SortedKeys(m map[string]int) []string {
	ks := make([]string, 0, len(m))
	for k := range m {
		ks = append(ks, k)
	}
	sort.Strings(ks)
	return ks
}

// WriteIfChanged keeps timestamps stable so that `make` rebuilds only when a generated file really changed.
func WriteIfChanged(path string, content string) (changed bool) {
	old, err := os.ReadFile(path)
	if err == nil && string(old) == content {
		return false
	}
	os.MkdirAll(filepath.Dir(path), 0o755)
	os.WriteFile(path, []byte(content), 0o644)
	return true
}

// ---------------------------------------------------------------------------
// Entry point and translator plumbing shared by the group binaries.

type CmdFn func(args []string) int

// RepoDir is the mosn source tree the harness was built against (VERIF_REPO, default /repo).
// Use it instead of a literal "/repo" when reading files of the tree (sample configs etc.).
func RepoDir() string {
	if d := os.Getenv("VERIF_REPO"); d != "" {
		return d
	}
	return "/repo"
}

func Main(cmds map[string]CmdFn) {
	if len(os.Args) < 2 {
		fmt.Fprintln(os.Stderr, "usage: vh-<group> <cmd> ...")
		os.Exit(2)
	}
	f, ok := cmds[os.Args[1]]
	if !ok {
		fmt.Fprintln(os.Stderr, "unknown command", os.Args[1])
		os.Exit(2)
	}
	os.Exit(f(os.Args[2:]))
}

// GenFn is a translator: it reads the mosn tree and returns the text of one Coq file.
type GenFn func(repo string) (content string, err error)

// RunGen runs the translators of one group: coq/Gen/<name>.v is REGENERATED FROM /repo ON EVERY RUN.
// A translator that fails emits `Definition <name>_translator_ok := false.` so that the proof
// obligation `<name>_translator_ok = true` in Props fails.
func RunGen(gens map[string]GenFn, args []string) int {
	fs := flag.NewFlagSet("gen", flag.ExitOnError)
	repo := fs.String("repo", RepoDir(), "mosn source tree")
	out := fs.String("out", "/verif/coq/Gen", "output directory")
	fs.Parse(args)
	names := make([]string, 0, len(gens))
	for n := range gens {
		names = append(names, n)
	}
	sort.Strings(names)
	for _, n := range names {
		c, err := gens[n](*repo)
		if err != nil {
			fmt.Fprintf(os.Stderr, "gen %s: %v\n", n, err)
			c = fmt.Sprintf("(* translator failed: %s *)\nDefinition %s_translator_ok := false.\n", strings.ReplaceAll(err.Error(), "*)", "* )"), n)
		}
		c = "(* GENERATED by the harness `gen` command from " + *repo + " - do not edit *)\n" + c
		if WriteIfChanged(filepath.Join(*out, n+".v"), c) {
			fmt.Println("gen: updated", n+".v")
		}
	}
	return 0
}

// ParseGoFile parses one Go file of the repo (for go/ast translators).
func ParseGoFile(repo, rel string) (*token.FileSet, *ast.File, error) {
	fset := token.NewFileSet()
	f, err := parser.ParseFile(fset, filepath.Join(repo, rel), nil, parser.ParseComments)
	return fset, f, err
}

// FindFunc returns the declaration of func (recv) name; recv=="" for plain functions.
func FindFunc(f *ast.File, recv, name string) *ast.FuncDecl {
	for _, d := range f.Decls {
		fd, ok := d.(*ast.FuncDecl)
		if !ok || fd.Name.Name != name {
			continue
		}
		if recv == "" && fd.Recv == nil {
			return fd
		}
		if recv != "" && fd.Recv != nil && len(fd.Recv.List) == 1 {
			t := fd.Recv.List[0].Type
			if st, ok := t.(*ast.StarExpr); ok {
				t = st.X
			}
			if id, ok := t.(*ast.Ident); ok && id.Name == recv {
				return fd
			}
		}
	}
	return nil
}
