module vh

go 1.18

require (
	github.com/TarsCloud/TarsGo v1.1.4
	github.com/apache/dubbo-go-hessian2 v1.10.2
	github.com/apache/thrift v0.13.0
	github.com/envoyproxy/go-control-plane v0.11.1-0.20230524094728-9239064ad72f
	github.com/ghodss/yaml v1.0.0
	github.com/rcrowley/go-metrics v0.0.0-20200313005456-10cdbea86bc0
	github.com/trainyao/go-maglev v0.0.0-20200611125015-4c1ae64d96a8
	github.com/valyala/fasthttp v1.40.0
	golang.org/x/net v0.23.0
	google.golang.org/protobuf v1.33.0
	mosn.io/api v1.6.0
	mosn.io/mosn v1.2.0
	mosn.io/pkg v1.6.0
)

require (
	github.com/andybalholm/brotli v1.0.4 // indirect
	github.com/antlr/antlr4 v0.0.0-20200503195918-621b933c7a7f // indirect
	github.com/c2h5oh/datasize v0.0.0-20171227191756-4eba002a5eae // indirect
	github.com/census-instrumentation/opencensus-proto v0.4.1 // indirect
	github.com/cncf/udpa/go v0.0.0-20220112060539-c52dc94e7fbe // indirect
	github.com/cncf/xds/go v0.0.0-20230607035331-e9ce68804cb4 // indirect
	github.com/cpuguy83/go-md2man/v2 v2.0.0 // indirect
	github.com/dchest/siphash v1.2.1 // indirect
	github.com/dubbogo/gost v1.11.16 // indirect
	github.com/envoyproxy/protoc-gen-validate v0.10.1 // indirect
	github.com/gogo/protobuf v1.3.2 // indirect
	github.com/golang/mock v1.6.0 // indirect
	github.com/golang/protobuf v1.5.4 // indirect
	github.com/google/cel-go v0.5.1 // indirect
	github.com/hashicorp/go-hclog v0.0.0-20180709165350-ff2cf002a8dd // indirect
	github.com/hashicorp/go-plugin v1.0.1 // indirect
	github.com/hashicorp/go-syslog v1.0.0 // indirect
	github.com/hashicorp/yamux v0.0.0-20180604194846-3520598351bb // indirect
	github.com/json-iterator/go v1.1.12 // indirect
	github.com/juju/errors v1.0.0 // indirect
	github.com/klauspost/compress v1.15.11 // indirect
	github.com/libp2p/go-reuseport v0.4.0 // indirect
	github.com/miekg/dns v1.1.50 // indirect
	github.com/mitchellh/go-testing-interface v1.0.0 // indirect
	github.com/modern-go/concurrent v0.0.0-20180306012644-bacd9c7ef1dd // indirect
	github.com/modern-go/reflect2 v1.0.2 // indirect
	github.com/oklog/run v1.0.0 // indirect
	github.com/pkg/errors v0.9.1 // indirect
	github.com/russross/blackfriday/v2 v2.0.1 // indirect
	github.com/shurcooL/sanitized_anchor_name v1.0.0 // indirect
	github.com/urfave/cli v1.22.1 // indirect
	github.com/valyala/bytebufferpool v1.0.0 // indirect
	go.uber.org/atomic v1.7.0 // indirect
	go.uber.org/automaxprocs v1.3.0 // indirect
	golang.org/x/crypto v0.21.0 // indirect
	golang.org/x/sys v0.18.0 // indirect
	golang.org/x/text v0.14.0 // indirect
	golang.org/x/tools v0.7.0 // indirect
	google.golang.org/genproto v0.0.0-20230410155749-daa745c078e1 // indirect
	google.golang.org/grpc v1.56.3 // indirect
	gopkg.in/natefinch/lumberjack.v2 v2.0.0 // indirect
	gopkg.in/yaml.v2 v2.4.0 // indirect
	istio.io/api v0.0.0-20211103171850-665ed2b92d52 // indirect
	istio.io/gogo-genproto v0.0.0-20210113155706-4daf5697332f // indirect
	mosn.io/proxy-wasm-go-host v0.2.1-0.20230626122511-25a9e133320e // indirect
)

replace mosn.io/mosn => /repo

replace github.com/envoyproxy/go-control-plane => github.com/envoyproxy/go-control-plane v0.10.0

replace istio.io/api => istio.io/api v0.0.0-20211103171850-665ed2b92d52
