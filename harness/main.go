package main

import (
	"fmt"
	"os"
)

type cmdFn func(args []string) int

var cmds = map[string]cmdFn{}

func main() {
	if len(os.Args) < 2 {
		fmt.Fprintln(os.Stderr, "usage: vh <cmd> ...")
		os.Exit(2)
	}
	f, ok := cmds[os.Args[1]]
	if !ok {
		fmt.Fprintln(os.Stderr, "unknown command", os.Args[1])
		os.Exit(2)
	}
	os.Exit(f(os.Args[2:]))
}
